// go2lean regenerates lean/Jrpc/Gen/*.lean from the current sources of creachadair/jrpc2.
//
// It emits three kinds of things, all consumed by the Tie theorems (lean/Jrpc/Tie/*.lean):
//
//	Consts.lean  constants and tables read from const/var declarations
//	Funcs.lean   Lean translations of a whitelist of small pure functions / conditions
//	Facts.lean   structural facts: channel operation sites with lock domination, writers of
//	             guarded fields, go statements, semaphore sites
//
// The translator supports a deliberately tiny subset of Go (if / else / switch / return,
// comparisons, boolean operators, len, constant indexing, integer arithmetic, calls to other
// whitelisted functions). If a whitelisted function leaves the subset, or an expected
// declaration is missing, go2lean exits non-zero; the check treats that as a broken obligation.
package main

import (
	"flag"
	"fmt"
	"go/ast"
	"go/parser"
	"go/printer"
	"go/token"
	"os"
	"path/filepath"
	"regexp"
	"sort"
	"strconv"
	"strings"
)

var fset = token.NewFileSet()

type pkg struct {
	dir   string
	files map[string]*ast.File
}

func loadPkg(root, dir string) *pkg {
	p := &pkg{dir: dir, files: map[string]*ast.File{}}
	ents, err := os.ReadDir(filepath.Join(root, dir))
	if err != nil {
		fail("read %s: %v", dir, err)
	}
	for _, e := range ents {
		n := e.Name()
		if e.IsDir() || !strings.HasSuffix(n, ".go") || strings.HasSuffix(n, "_test.go") || n == "verif_on.go" || n == "verif_off.go" {
			continue
		}
		f, err := parser.ParseFile(fset, filepath.Join(root, dir, n), nil, parser.ParseComments)
		if err != nil {
			fail("parse %s: %v", n, err)
		}
		p.files[n] = f
	}
	return p
}

// extractFail is the panic value of a failed extraction.
type extractFail string

func fail(format string, args ...any) {
	panic(extractFail(fmt.Sprintf(format, args...)))
}

// failures collects the extractions that could not be made; each leaves a placeholder definition
// of type ExtractionFailed, so that exactly the Tie theorems that use it stop type-checking.
var failures []string

// guard runs one extraction writing to w. If it fails, what it wrote is discarded and every name it
// was to define becomes a placeholder.
func guard(w *strings.Builder, names []string, f func()) {
	before := w.String()
	defer func() {
		if r := recover(); r != nil {
			ef, ok := r.(extractFail)
			if !ok {
				panic(r)
			}
			w.Reset()
			w.WriteString(before)
			for _, n := range names {
				fmt.Fprintf(w, "/-- EXTRACTION FAILED: %s -/\ndef %s : Jrpc.GoPrelude.ExtractionFailed := ⟨%s⟩\n\n", strings.ReplaceAll(string(ef), "-/", "- /"), n, leanStr(string(ef)))
			}
			failures = append(failures, strings.Join(names, ",")+": "+string(ef))
			fmt.Fprintf(os.Stderr, "go2lean: extraction of %s failed: %s\n", strings.Join(names, ","), string(ef))
		}
	}()
	f()
}

func src(n ast.Node) string {
	var sb strings.Builder
	printer.Fprint(&sb, fset, n)
	return sb.String()
}

// ---------------------------------------------------------------------------------------------
// constants

type consts struct {
	ints map[string]int64
	strs map[string]string
}

func evalInt(e ast.Expr, c *consts) (int64, bool) {
	switch v := e.(type) {
	case *ast.BasicLit:
		switch v.Kind {
		case token.INT:
			n, err := strconv.ParseInt(v.Value, 0, 64)
			return n, err == nil
		case token.CHAR:
			r, _, _, err := strconv.UnquoteChar(v.Value[1:len(v.Value)-1], '\'')
			return int64(r), err == nil
		}
	case *ast.ParenExpr:
		return evalInt(v.X, c)
	case *ast.UnaryExpr:
		if v.Op == token.SUB {
			n, ok := evalInt(v.X, c)
			return -n, ok
		}
	case *ast.BinaryExpr:
		a, ok1 := evalInt(v.X, c)
		b, ok2 := evalInt(v.Y, c)
		if !ok1 || !ok2 {
			return 0, false
		}
		switch v.Op {
		case token.SHL:
			return a << uint(b), true
		case token.ADD:
			return a + b, true
		case token.SUB:
			return a - b, true
		case token.MUL:
			return a * b, true
		}
	case *ast.Ident:
		n, ok := c.ints[v.Name]
		return n, ok
	}
	return 0, false
}

func collectConsts(p *pkg, c *consts) {
	for _, name := range sortedFiles(p) {
		for _, d := range p.files[name].Decls {
			gd, ok := d.(*ast.GenDecl)
			if !ok || gd.Tok != token.CONST {
				continue
			}
			for _, s := range gd.Specs {
				vs := s.(*ast.ValueSpec)
				for i, n := range vs.Names {
					if i >= len(vs.Values) {
						continue
					}
					if bl, ok := vs.Values[i].(*ast.BasicLit); ok && bl.Kind == token.STRING {
						if sv, err := strconv.Unquote(bl.Value); err == nil {
							c.strs[n.Name] = sv
						}
						continue
					}
					if v, ok := evalInt(vs.Values[i], c); ok {
						c.ints[n.Name] = v
					}
				}
			}
		}
	}
}

func sortedFiles(p *pkg) []string {
	var ns []string
	for n := range p.files {
		ns = append(ns, n)
	}
	sort.Strings(ns)
	return ns
}

func leanBytes(s string) string {
	var parts []string
	for i := 0; i < len(s); i++ {
		parts = append(parts, strconv.Itoa(int(s[i])))
	}
	return "[" + strings.Join(parts, ", ") + "]"
}

func leanStr(s string) string {
	var sb strings.Builder
	sb.WriteByte('"')
	for _, r := range s {
		switch {
		case r == '"':
			sb.WriteString("\\\"")
		case r == '\\':
			sb.WriteString("\\\\")
		case r == '\n':
			sb.WriteString("\\n")
		case r == '\r':
			sb.WriteString("\\r")
		case r == '\t':
			sb.WriteString("\\t")
		case r < 0x20:
			fmt.Fprintf(&sb, "\\x%02x", r)
		default:
			sb.WriteRune(r)
		}
	}
	sb.WriteByte('"')
	return sb.String()
}

func leanInt(n int64) string {
	if n < 0 {
		return fmt.Sprintf("(%d)", n)
	}
	return strconv.FormatInt(n, 10)
}

// ---------------------------------------------------------------------------------------------
// function lookup

func findFunc(p *pkg, recv, name string) (*ast.FuncDecl, string) {
	for _, fn := range sortedFiles(p) {
		for _, d := range p.files[fn].Decls {
			fd, ok := d.(*ast.FuncDecl)
			if !ok || fd.Name.Name != name {
				continue
			}
			r := ""
			if fd.Recv != nil && len(fd.Recv.List) == 1 {
				r = strings.TrimPrefix(src(fd.Recv.List[0].Type), "*")
			}
			if r == recv {
				return fd, fn
			}
		}
	}
	return nil, ""
}

// ---------------------------------------------------------------------------------------------
// translator

type tr struct {
	atoms map[string]string // Go source text -> Lean text (checked before structural translation)
	c     *consts
	funcs map[string]string // Go function name -> Lean function name (callable)
	who   string
}

func (t *tr) expr(e ast.Expr) string {
	if a, ok := t.atoms[src(e)]; ok {
		return a
	}
	switch v := e.(type) {
	case *ast.ParenExpr:
		return "(" + t.expr(v.X) + ")"
	case *ast.BasicLit:
		switch v.Kind {
		case token.INT:
			n, _ := strconv.ParseInt(v.Value, 0, 64)
			return leanInt(n)
		case token.CHAR:
			n, ok := evalInt(v, t.c)
			if !ok {
				fail("%s: bad char literal %s", t.who, v.Value)
			}
			return leanInt(n)
		case token.STRING:
			s, err := strconv.Unquote(v.Value)
			if err != nil {
				fail("%s: bad string literal", t.who)
			}
			return "(" + leanBytes(s) + " : List UInt8)"
		}
	case *ast.Ident:
		switch v.Name {
		case "true", "false":
			return v.Name
		}
		if _, ok := t.c.ints[v.Name]; ok {
			return "Consts." + v.Name
		}
		if sv, ok := t.c.strs[v.Name]; ok {
			return "(" + leanBytes(sv) + " : List UInt8)" // the constant's value (whatever its name)
		}
		return v.Name
	case *ast.UnaryExpr:
		switch v.Op {
		case token.NOT:
			return "(!" + t.expr(v.X) + ")"
		case token.SUB:
			return "(-" + t.expr(v.X) + ")"
		}
	case *ast.BinaryExpr:
		// nil comparisons
		if id, ok := v.Y.(*ast.Ident); ok && id.Name == "nil" {
			if v.Op == token.EQL {
				return "(GoNil.isNil " + t.expr(v.X) + ")"
			} else if v.Op == token.NEQ {
				return "(!GoNil.isNil " + t.expr(v.X) + ")"
			}
		}
		a, b := t.expr(v.X), t.expr(v.Y)
		switch v.Op {
		case token.LAND:
			return "(" + a + " && " + b + ")"
		case token.LOR:
			return "(" + a + " || " + b + ")"
		case token.EQL:
			return "(" + a + " == " + b + ")"
		case token.NEQ:
			return "(" + a + " != " + b + ")"
		case token.LSS:
			return "(decide (" + a + " < " + b + "))"
		case token.LEQ:
			return "(decide (" + a + " ≤ " + b + "))"
		case token.GTR:
			return "(decide (" + a + " > " + b + "))"
		case token.GEQ:
			return "(decide (" + a + " ≥ " + b + "))"
		case token.ADD:
			return "(" + a + " + " + b + ")"
		case token.SUB:
			return "(" + a + " - " + b + ")"
		case token.MUL:
			return "(" + a + " * " + b + ")"
		case token.QUO:
			return "(" + a + " / " + b + ")"
		case token.SHL:
			if n, ok := evalInt(v, t.c); ok {
				return leanInt(n)
			}
		}
	case *ast.CallExpr:
		fn := src(v.Fun)
		if fn == "len" && len(v.Args) == 1 {
			return "(GoLen.len " + t.expr(v.Args[0]) + ")"
		}
		if (fn == "string" || fn == "[]byte" || fn == "json.RawMessage") && len(v.Args) == 1 {
			return t.expr(v.Args[0]) // strings and byte slices are both byte lists in the model
		}
		if (fn == "int" || fn == "int64" || fn == "int32") && len(v.Args) == 1 {
			return t.expr(v.Args[0]) // integer conversions are the identity on the model's Int (values are small)
		}
		if ln, ok := t.funcs[fn]; ok {
			parts := []string{ln}
			for _, a := range v.Args {
				parts = append(parts, t.expr(a))
			}
			return "(" + strings.Join(parts, " ") + ")"
		}
	case *ast.IndexExpr:
		if n, ok := evalInt(v.Index, t.c); ok && n >= 0 {
			return "(GoIdx.idx " + t.expr(v.X) + " " + strconv.FormatInt(n, 10) + ")"
		}
	}
	fail("%s: unsupported expression %q (outside the translated subset)", t.who, src(e))
	return ""
}

// stmts translates a statement list ending in a return on every path into a Lean expression.
func (t *tr) stmts(list []ast.Stmt, ind string) string {
	if len(list) == 0 {
		fail("%s: control reaches the end of a block without return", t.who)
	}
	s := list[0]
	rest := list[1:]
	switch v := s.(type) {
	case *ast.AssignStmt:
		if v.Tok == token.DEFINE && len(v.Lhs) == 1 && len(v.Rhs) == 1 {
			return "let " + src(v.Lhs[0]) + " := " + t.expr(v.Rhs[0]) + "\n" + ind + t.stmts(rest, ind)
		}
	case *ast.ReturnStmt:
		if a, ok := t.atoms["return "+src0(v.Results)]; ok {
			return a
		}
		if len(v.Results) == 1 {
			return t.expr(v.Results[0])
		}
		var parts []string
		for _, r := range v.Results {
			parts = append(parts, t.expr(r))
		}
		return "(" + strings.Join(parts, ", ") + ")"
	case *ast.IfStmt:
		prefix := ""
		if v.Init != nil {
			as, ok := v.Init.(*ast.AssignStmt)
			if !ok || as.Tok != token.DEFINE || len(as.Lhs) != 1 || len(as.Rhs) != 1 {
				fail("%s: if with init statement %q unsupported", t.who, src(v.Init))
			}
			prefix = "let " + src(as.Lhs[0]) + " := " + t.expr(as.Rhs[0]) + "\n" + ind
		}
		cond := t.expr(v.Cond)
		thenPart := t.stmtsOrFall(v.Body.List, rest, ind+"  ")
		var elsePart string
		switch e := v.Else.(type) {
		case nil:
			elsePart = t.stmts(rest, ind+"  ")
		case *ast.BlockStmt:
			elsePart = t.stmtsOrFall(e.List, rest, ind+"  ")
		case *ast.IfStmt:
			elsePart = t.stmts(append([]ast.Stmt{e}, rest...), ind+"  ")
		}
		return prefix + "if " + cond + " then\n" + ind + "  " + thenPart + "\n" + ind + "else\n" + ind + "  " + elsePart
	case *ast.SwitchStmt:
		if v.Init != nil {
			fail("%s: switch with init unsupported", t.who)
		}
		var tag string
		if v.Tag != nil {
			tag = t.expr(v.Tag)
		}
		var def []ast.Stmt
		hasDef := false
		type arm struct {
			cond string
			body []ast.Stmt
		}
		var arms []arm
		for _, cs := range v.Body.List {
			cc := cs.(*ast.CaseClause)
			if cc.List == nil {
				def, hasDef = cc.Body, true
				continue
			}
			var conds []string
			for _, ce := range cc.List {
				if v.Tag != nil {
					conds = append(conds, "("+tag+" == "+t.expr(ce)+")")
				} else {
					conds = append(conds, t.expr(ce))
				}
			}
			arms = append(arms, arm{strings.Join(conds, " || "), cc.Body})
		}
		var tail string
		if hasDef {
			tail = t.stmtsOrFall(def, rest, ind+"  ")
		} else {
			tail = t.stmts(rest, ind+"  ")
		}
		out := tail
		for i := len(arms) - 1; i >= 0; i-- {
			out = "if " + arms[i].cond + " then\n" + ind + "  " + t.stmtsOrFall(arms[i].body, rest, ind+"  ") + "\n" + ind + "else\n" + ind + "  " + out
		}
		return out
	}
	fail("%s: unsupported statement %q", t.who, src(s))
	return ""
}

// stmtsOrFall translates a block that may fall through to the statements after it.
func (t *tr) stmtsOrFall(block, rest []ast.Stmt, ind string) string {
	if len(block) > 0 {
		if _, ok := block[len(block)-1].(*ast.ReturnStmt); ok {
			return t.stmts(block, ind)
		}
	}
	// strip comment-only / empty blocks: fall through
	return t.stmts(append(append([]ast.Stmt{}, block...), rest...), ind)
}

func emit0(fs *strings.Builder, funcs map[string]string, p *pkg, cst *consts, recv, name, lean, sig string, atoms map[string]string) {
	fd, file := findFunc(p, recv, name)
	if fd == nil {
		fail("function %s.%s not found", recv, name)
	}
	t := &tr{atoms: atoms, c: cst, funcs: funcs, who: file + ":" + name}
	body := t.stmts(fd.Body.List, "  ")
	fmt.Fprintf(fs, "/-- %s: `%s` -/\ndef %s %s :=\n  %s\n\n", file, strings.TrimSpace(recv+" "+name), lean, sig, body)
	funcs[name] = lean
}

func emitCond0(fs *strings.Builder, funcs map[string]string, p *pkg, cst *consts, recv, name, lean, sig string, pick func(*ast.FuncDecl) ast.Expr, atoms map[string]string) {
	fd, file := findFunc(p, recv, name)
	if fd == nil {
		fail("function %s.%s not found", recv, name)
	}
	e := pick(fd)
	if e == nil {
		fail("%s:%s: expected condition not found", file, name)
	}
	e = inlineLocals(fd, e)
	t := &tr{atoms: atoms, c: cst, funcs: funcs, who: file + ":" + name}
	fmt.Fprintf(fs, "/-- %s: condition in `%s`: `%s` -/\ndef %s %s :=\n  %s\n\n", file, strings.TrimSpace(recv+" "+name), src(e), lean, sig, t.expr(e))
}

// paramsTail translates a statement list whose returns are (nil, nil) = omit, (<name>, nil) = keep,
// (nil, <error>) = refuse.
func paramsTail(list []ast.Stmt, name string, c *consts, funcs map[string]string, who string) string {
	atoms := map[string]string{}
	for _, st := range list {
		ast.Inspect(st, func(n ast.Node) bool {
			r, ok := n.(*ast.ReturnStmt)
			if !ok {
				return true
			}
			if len(r.Results) != 2 {
				fail("%s: return with %d results", who, len(r.Results))
			}
			a, b := src(r.Results[0]), src(r.Results[1])
			key := "return " + src0(r.Results)
			switch {
			case a == "nil" && b == "nil":
				atoms[key] = "ParamsDecision.leaveOut"
			case a == name && b == "nil":
				atoms[key] = "(ParamsDecision.keep " + name + ")"
			case a == "nil" && strings.HasPrefix(b, "&Error{Code: InvalidRequest"):
				atoms[key] = "ParamsDecision.refuse"
			default:
				fail("%s: unexpected return %q", who, key)
			}
			return true
		})
	}
	fn := map[string]string{"firstByte": "firstByte"}
	for k, v := range funcs {
		fn[k] = v
	}
	t := &tr{atoms: atoms, c: c, funcs: fn, who: who}
	return t.stmts(list, "  ")
}

// rewriteAssignNil replaces a block consisting of the single statement `<name> = nil` by
// `return nil, nil` throughout an if / else-if chain.
func rewriteAssignNil(list []ast.Stmt, name string) []ast.Stmt {
	var out []ast.Stmt
	for _, st := range list {
		out = append(out, rewriteAssignNilStmt(st, name))
	}
	return out
}

func rewriteAssignNilStmt(st ast.Stmt, name string) ast.Stmt {
	switch v := st.(type) {
	case *ast.IfStmt:
		c := *v
		c.Body = &ast.BlockStmt{List: rewriteAssignNil(v.Body.List, name)}
		if v.Else != nil {
			c.Else = rewriteAssignNilStmt(v.Else, name)
		}
		return &c
	case *ast.BlockStmt:
		return &ast.BlockStmt{List: rewriteAssignNil(v.List, name)}
	case *ast.AssignStmt:
		if src(v) == name+" = nil" {
			return &ast.ReturnStmt{Results: []ast.Expr{ast.NewIdent("nil"), ast.NewIdent("nil")}}
		}
	}
	return st
}

// withHelpers returns the body of fd followed by the bodies of the unexported functions / methods
// of the same package that it calls (transitively, two levels): an extraction that looks for a
// construct "in function f" still finds it after the construct was moved into a helper of f.
func withHelpers(p *pkg, fd *ast.FuncDecl) []ast.Node {
	out := []ast.Node{fd.Body}
	seen := map[string]bool{fd.Name.Name: true}
	frontier := []*ast.BlockStmt{fd.Body}
	for depth := 0; depth < 2; depth++ {
		var next []*ast.BlockStmt
		for _, b := range frontier {
			ast.Inspect(b, func(n ast.Node) bool {
				call, ok := n.(*ast.CallExpr)
				if !ok {
					return true
				}
				name := ""
				switch f := call.Fun.(type) {
				case *ast.Ident:
					name = f.Name
				case *ast.SelectorExpr:
					if _, isIdent := f.X.(*ast.Ident); isIdent {
						name = f.Sel.Name
					}
				}
				if name == "" || ast.IsExported(name) || seen[name] {
					return true
				}
				for _, fn := range sortedFiles(p) {
					for _, d := range p.files[fn].Decls {
						if hd, ok := d.(*ast.FuncDecl); ok && hd.Name.Name == name && hd.Body != nil && !seen[name] {
							seen[name] = true
							out = append(out, hd.Body)
							next = append(next, hd.Body)
						}
					}
				}
				return true
			})
		}
		frontier = next
	}
	return out
}

// inlineLocals replaces, in a copy of e, every identifier that the function defines exactly once
// with `x := <expr>` (and never assigns again) by that expression - so that a condition written
// through a named intermediate (`isReply := …; if s.allowP && isReply`) is translated like the
// direct form. Two levels.
func inlineLocals(fd *ast.FuncDecl, e ast.Expr) ast.Expr {
	defs := map[string]ast.Expr{}
	count := map[string]int{}
	ast.Inspect(fd.Body, func(n ast.Node) bool {
		if as, ok := n.(*ast.AssignStmt); ok {
			for i, l := range as.Lhs {
				if id, ok := l.(*ast.Ident); ok {
					count[id.Name]++
					if as.Tok == token.DEFINE && len(as.Lhs) == len(as.Rhs) {
						defs[id.Name] = as.Rhs[i]
					}
				}
			}
		}
		return true
	})
	var rewrite func(x ast.Expr, depth int) ast.Expr
	rewrite = func(x ast.Expr, depth int) ast.Expr {
		switch v := x.(type) {
		case *ast.Ident:
			if d, ok := defs[v.Name]; ok && count[v.Name] == 1 && depth < 2 {
				if _, isCall := d.(*ast.CallExpr); !isCall { // only pure expressions
					return &ast.ParenExpr{X: rewrite(d, depth+1)}
				}
			}
			return v
		case *ast.ParenExpr:
			return &ast.ParenExpr{X: rewrite(v.X, depth)}
		case *ast.UnaryExpr:
			return &ast.UnaryExpr{Op: v.Op, X: rewrite(v.X, depth)}
		case *ast.BinaryExpr:
			return &ast.BinaryExpr{X: rewrite(v.X, depth), Op: v.Op, Y: rewrite(v.Y, depth)}
		}
		return x
	}
	return rewrite(e, 0)
}

func inspectAll(nodes []ast.Node, f func(ast.Node) bool) {
	for _, n := range nodes {
		ast.Inspect(n, f)
	}
}

func src0(es []ast.Expr) string {
	var p []string
	for _, e := range es {
		p = append(p, src(e))
	}
	return strings.Join(p, ", ")
}

// ---------------------------------------------------------------------------------------------
// structural facts

type site struct {
	file, fn, what string
	locked         bool
}

// lockWalk walks a function body in source order tracking whether the receiver's mutex is held.
// Function literals are separate goroutines or deferred callbacks: they start unlocked.
type lockWalk struct {
	file, fn string
	mutex    map[string]bool // lock expressions, e.g. "s.mu", "c.mu"
	visit    func(n ast.Node, held bool, fn string)
}

func (w *lockWalk) block(list []ast.Stmt, held bool) bool {
	for _, s := range list {
		held = w.stmt(s, held)
	}
	return held
}

func (w *lockWalk) exprs(n ast.Node, held bool) {
	if n == nil {
		return
	}
	ast.Inspect(n, func(x ast.Node) bool {
		switch v := x.(type) {
		case *ast.FuncLit:
			w.block(v.Body.List, false)
			return false
		case *ast.CallExpr:
			w.visit(v, held, w.fn)
		case *ast.AssignStmt, *ast.IncDecStmt, *ast.UnaryExpr:
			w.visit(v, held, w.fn)
		}
		return true
	})
}

func (w *lockWalk) lockOp(s ast.Stmt) (op string) {
	es, ok := s.(*ast.ExprStmt)
	if !ok {
		return ""
	}
	call, ok := es.X.(*ast.CallExpr)
	if !ok {
		return ""
	}
	sel, ok := call.Fun.(*ast.SelectorExpr)
	if !ok {
		return ""
	}
	if w.mutex[src(sel.X)] {
		return sel.Sel.Name
	}
	return ""
}

func (w *lockWalk) stmt(s ast.Stmt, held bool) bool {
	switch op := w.lockOp(s); op {
	case "Lock":
		return true
	case "Unlock":
		return false
	}
	switch v := s.(type) {
	case *ast.BlockStmt:
		return w.block(v.List, held)
	case *ast.IfStmt:
		if v.Init != nil {
			held = w.stmt(v.Init, held)
		}
		w.exprs(v.Cond, held)
		h1 := w.block(v.Body.List, held)
		h2 := held
		if v.Else != nil {
			h2 = w.stmt(v.Else, held)
		}
		// a branch that ends in return does not flow on
		if endsInReturn(v.Body.List) {
			return h2
		}
		if eb, ok := v.Else.(*ast.BlockStmt); ok && endsInReturn(eb.List) {
			return h1
		}
		return h1 && h2
	case *ast.ForStmt:
		if v.Init != nil {
			held = w.stmt(v.Init, held)
		}
		w.exprs(v.Cond, held)
		return w.block(v.Body.List, held)
	case *ast.RangeStmt:
		w.exprs(v.X, held)
		return w.block(v.Body.List, held)
	case *ast.SwitchStmt:
		if v.Init != nil {
			held = w.stmt(v.Init, held)
		}
		w.exprs(v.Tag, held)
		for _, c := range v.Body.List {
			cc := c.(*ast.CaseClause)
			for _, e := range cc.List {
				w.exprs(e, held)
			}
			w.block(cc.Body, held)
		}
		return held
	case *ast.TypeSwitchStmt:
		for _, c := range v.Body.List {
			w.block(c.(*ast.CaseClause).Body, held)
		}
		return held
	case *ast.SelectStmt:
		for _, c := range v.Body.List {
			cc := c.(*ast.CommClause)
			if cc.Comm != nil {
				w.stmt(cc.Comm, held)
			}
			w.block(cc.Body, held)
		}
		return held
	case *ast.GoStmt:
		w.visit(v, held, w.fn)
		if fl, ok := v.Call.Fun.(*ast.FuncLit); ok {
			w.block(fl.Body.List, false)
		} else {
			w.exprs(v.Call, held)
		}
		return held
	case *ast.DeferStmt:
		if sel, ok := v.Call.Fun.(*ast.SelectorExpr); ok && w.mutex[src(sel.X)] {
			return held // defer mu.Unlock(): held to the end
		}
		if fl, ok := v.Call.Fun.(*ast.FuncLit); ok {
			w.block(fl.Body.List, false)
			return held
		}
		w.exprs(v.Call, held)
		return held
	default:
		w.exprs(s, held)
		return held
	}
}

func endsInReturn(list []ast.Stmt) bool {
	if len(list) == 0 {
		return false
	}
	_, ok := list[len(list)-1].(*ast.ReturnStmt)
	return ok
}

// ---------------------------------------------------------------------------------------------

func main() {
	repo := flag.String("repo", "/repo", "repository root")
	out := flag.String("out", "", "output directory for generated Lean files")
	flag.Parse()
	defer func() {
		if r := recover(); r != nil {
			if ef, ok := r.(extractFail); ok {
				fmt.Fprintf(os.Stderr, "go2lean: %s\n", string(ef))
				os.Exit(1)
			}
			panic(r)
		}
	}()
	if *out == "" {
		fail("missing -out")
	}
	root := loadPkg(*repo, ".")
	chanp := loadPkg(*repo, "channel")
	jhttp := loadPkg(*repo, "jhttp")
	c := &consts{ints: map[string]int64{}, strs: map[string]string{}}
	collectConsts(root, c)
	cc := &consts{ints: map[string]int64{}, strs: map[string]string{}}
	collectConsts(chanp, cc)

	// ---- Consts.lean
	var cs strings.Builder
	cs.WriteString("import Jrpc.GoPrelude\n/-! GENERATED by tools/go2lean from the current /repo sources. Do not edit. -/\nnamespace Jrpc.Gen.Consts\n\n")
	for _, n := range []string{"ParseError", "InvalidRequest", "MethodNotFound", "InvalidParams", "InternalError", "NoError", "SystemError", "Cancelled", "DeadlineExceeded"} {
		v, ok := c.ints[n]
		if !ok {
			fail("constant %s not found in package jrpc2", n)
		}
		fmt.Fprintf(&cs, "def %s : Int := %s\n", n, leanInt(v))
	}
	for _, n := range []string{"Version", "rpcServerInfo"} {
		v, ok := c.strs[n]
		if !ok {
			fail("string constant %s not found", n)
		}
		fmt.Fprintf(&cs, "def %s : String := %s\ndef %s_bytes : List UInt8 := %s\n", n, leanStr(v), n, leanBytes(v))
	}
	for _, n := range []string{"maxPrealloc", "bufSize"} {
		v, ok := cc.ints[n]
		if !ok {
			fail("constant %s not found in package channel", n)
		}
		fmt.Fprintf(&cs, "def %s : Int := %s\n", n, leanInt(v))
	}
	// stdError table
	cs.WriteString("\n/-- the `stdError` table of code.go -/\ndef stdError : List (Int × String) := [")
	stdErr := map[int64]string{}
	if lit := findVarLit(root, "stdError"); lit != nil {
		var parts []string
		for _, el := range lit.Elts {
			kv := el.(*ast.KeyValueExpr)
			k, ok := evalInt(kv.Key, c)
			s, err := strconv.Unquote(src(kv.Value))
			if !ok || err != nil {
				fail("stdError: unsupported entry %s", src(el))
			}
			stdErr[k] = s
			parts = append(parts, fmt.Sprintf("(%s, %s)", leanInt(k), leanStr(s)))
		}
		cs.WriteString(strings.Join(parts, ", "))
	} else {
		fail("stdError not found")
	}
	cs.WriteString("]\n\n")
	// error sentinels: var errX = &Error{Code: C, Message: M}
	for _, n := range []string{"errEmptyMethod", "errNoSuchMethod", "errDuplicateID", "errInvalidRequest", "errEmptyBatch", "errInvalidParams"} {
		lit := findVarLit(root, n)
		if lit == nil {
			fail("sentinel %s not found", n)
		}
		var code int64
		var msg string
		okc, okm := false, false
		for _, el := range lit.Elts {
			kv, ok := el.(*ast.KeyValueExpr)
			if !ok {
				fail("%s: positional fields unsupported", n)
			}
			switch src(kv.Key) {
			case "Code":
				code, okc = evalInt(kv.Value, c)
			case "Message":
				if s, err := strconv.Unquote(src(kv.Value)); err == nil {
					msg, okm = s, true
				} else if call, ok := kv.Value.(*ast.CallExpr); ok && strings.HasSuffix(src(call.Fun), ".String") {
					k, ok2 := evalInt(call.Fun.(*ast.SelectorExpr).X, c)
					msg, okm = stdErr[k], ok2
				}
			}
		}
		if !okc || !okm {
			fail("%s: cannot evaluate code/message", n)
		}
		fmt.Fprintf(&cs, "def %s : Int × String := (%s, %s)\n", n, leanInt(code), leanStr(msg))
	}
	// Error struct JSON tags
	cs.WriteString("\n/-- JSON tags of the fields of `Error` (name, omitempty) -/\ndef errorTags : List (String × String × Bool) := [")
	{
		st := findStruct(root, "Error")
		if st == nil {
			fail("type Error not found")
		}
		var parts []string
		for _, f := range st.Fields.List {
			tag := ""
			if f.Tag != nil {
				tv, _ := strconv.Unquote(f.Tag.Value)
				tag = structTag(tv, "json")
			}
			name, opts, _ := strings.Cut(tag, ",")
			for _, fnm := range f.Names {
				parts = append(parts, fmt.Sprintf("(%s, %s, %v)", leanStr(fnm.Name), leanStr(name), strings.Contains(opts, "omitempty")))
			}
		}
		cs.WriteString(strings.Join(parts, ", "))
	}
	cs.WriteString("]\n")
	// header literals of hdr.Send
	guard(&cs, []string{"hdrSendLiterals", "hdrRecvFields"}, func() {
		fd, _ := findFunc(chanp, "hdr", "Send")
		if fd == nil {
			fail("hdr.Send not found")
		}
		var lits []string
		ast.Inspect(fd.Body, func(n ast.Node) bool {
			if bl, ok := n.(*ast.BasicLit); ok && bl.Kind == token.STRING {
				s, _ := strconv.Unquote(bl.Value)
				lits = append(lits, leanStr(s))
			}
			return true
		})
		fmt.Fprintf(&cs, "\n/-- string literals written by `hdr.Send`, in source order -/\ndef hdrSendLiterals : List String := [%s]\n", strings.Join(lits, ", "))
		fd, _ = findFunc(chanp, "hdr", "Recv")
		if fd == nil {
			fail("hdr.Recv not found")
		}
		var cases []string
		inspectAll(withHelpers(chanp, fd), func(n ast.Node) bool {
			if cc, ok := n.(*ast.CaseClause); ok {
				for _, e := range cc.List {
					if bl, ok := e.(*ast.BasicLit); ok && bl.Kind == token.STRING {
						s, _ := strconv.Unquote(bl.Value)
						cases = append(cases, leanStr(s))
					}
				}
			}
			return true
		})
		fmt.Fprintf(&cs, "/-- header names matched (after ToLower) by `hdr.Recv` -/\ndef hdrRecvFields : List String := [%s]\n", strings.Join(cases, ", "))
	})
	cs.WriteString("\nend Jrpc.Gen.Consts\n")
	write(*out, "Consts.lean", cs.String())

	// ---- Funcs.lean
	var fs strings.Builder
	fs.WriteString("import Jrpc.Gen.Consts\nimport Jrpc.GoPrelude\n/-! GENERATED by tools/go2lean from the current /repo sources. Do not edit. -/\nnamespace Jrpc.Gen.Funcs\nopen Jrpc.Gen Jrpc.GoPrelude\n\n")
	funcs := map[string]string{}
	emit := func(p *pkg, cst *consts, recv, name, lean, sig string, atoms map[string]string) {
		guard(&fs, []string{lean}, func() { emit0(&fs, funcs, p, cst, recv, name, lean, sig, atoms) })
	}
	_ = func(p *pkg, cst *consts, recv, name, lean, sig string, atoms map[string]string) {
		fd, file := findFunc(p, recv, name)
		if fd == nil {
			fail("function %s.%s not found", recv, name)
		}
		t := &tr{atoms: atoms, c: cst, funcs: funcs, who: file + ":" + name}
		body := t.stmts(fd.Body.List, "  ")
		fmt.Fprintf(&fs, "/-- %s: `%s` -/\ndef %s %s :=\n  %s\n\n", file, strings.TrimSpace(recv+" "+name), lean, sig, body)
		funcs[name] = lean
	}
	emit(root, c, "", "isNull", "isNull", "(msg : List UInt8) : Bool", nil)
	// the reserved-name gate of Server.assignLocked, translated as a whole (helpers it returns through
	// are inlined): who answers a name - the user's assigner, the rpc.serverInfo built-in, nobody
	guard(&fs, []string{"assignGate"}, func() {
		fd, file := findFunc(root, "Server", "assignLocked")
		if fd == nil {
			fail("Server.assignLocked not found")
		}
		var gate func(fd *ast.FuncDecl, depth int) string
		gate = func(fd *ast.FuncDecl, depth int) string {
			atoms := map[string]string{"s.builtin": "builtin"}
			ast.Inspect(fd.Body, func(n ast.Node) bool {
				if _, isLit := n.(*ast.FuncLit); isLit {
					return false
				}
				r, ok := n.(*ast.ReturnStmt)
				if !ok || len(r.Results) != 1 {
					return true
				}
				key, val := "return "+src0(r.Results), src(r.Results[0])
				switch {
				case val == "nil":
					atoms[key] = "GateOut.nobody"
				case strings.HasPrefix(val, "s.mux.Assign("):
					atoms[key] = "GateOut.assigner"
				default:
					if call, isCall := r.Results[0].(*ast.CallExpr); isCall {
						if sel, isSel := call.Fun.(*ast.SelectorExpr); isSel && src(sel.X) == "s" && !ast.IsExported(sel.Sel.Name) && depth < 2 {
							if hd, _ := findFunc(root, "Server", sel.Sel.Name); hd != nil && hd.Body != nil {
								atoms[key] = "(" + gate(hd, depth+1) + ")"
								return true
							}
						}
						fail("%s:assignLocked: unsupported return %q", file, val)
					}
					atoms[key] = "GateOut.serverInfo" // a handler value: function literal or method value
				}
				return true
			})
			t := &tr{atoms: atoms, c: c, funcs: map[string]string{"strings.HasPrefix": "hasPrefix"}, who: file + ":" + fd.Name.Name}
			return t.stmts(fd.Body.List, "  ")
		}
		fmt.Fprintf(&fs, "/-- %s: `Server.assignLocked` (with the helpers it returns through): `hasPrefix s p` is `strings.HasPrefix(s, p)` -/\ndef assignGate (builtin : Bool) (name : List UInt8) (hasPrefix : List UInt8 → List UInt8 → Bool) : GateOut :=\n  %s\n\n", file, gate(fd, 0))
	})
	funcs["bytes.TrimSpace"] = "trimSpace"
	emit(root, c, "", "firstByte", "firstByte", "(data : List UInt8) (trimSpace : List UInt8 → List UInt8) : Int", nil)
	delete(funcs, "firstByte") // callers pass the byte as an atom
	emit(root, c, "", "isValidID", "isValidID", "(v : List UInt8) : Bool", nil)
	emit(root, c, "", "isValidVersion", "isValidVersion", "(v : List UInt8) : Bool", nil)
	emit(root, c, "", "fixID", "fixID", "(id : List UInt8) : List UInt8", map[string]string{"nil": "[]"})
	emit(root, c, "jmessage", "isRequestOrNotification", "isRequestOrNotification",
		"(m : List UInt8) (e : Option Unit) (r : List UInt8) : Bool",
		map[string]string{"j.M": "m", "j.E": "e", "j.R": "r", `""`: "([] : List UInt8)"})
	emit(root, c, "jmessage", "isNotification", "isNotification",
		"(id m : List UInt8) (e : Option Unit) (r : List UInt8) : Bool",
		map[string]string{"j.isRequestOrNotification()": "(isRequestOrNotification m e r)", "j.ID": "id"})
	emit(root, c, "", "filterError", "filterError", "(code : Int) : FilterResult",
		map[string]string{"e.Code": "code", "context.Canceled": "FilterResult.canceled", "context.DeadlineExceeded": "FilterResult.deadline", "e": "FilterResult.same"})
	emit(root, c, "Code", "Err", "codeErr", "(c : Int) : Option Int",
		map[string]string{"nil": "none", "codeError(c)": "(some c)"})
	emit(root, c, "ServerOptions", "concurrency", "concurrency", "(sNil : Bool) (conc ncpu : Int) : Int",
		map[string]string{"s == nil": "sNil", "s != nil": "(!sNil)", "s.Concurrency": "conc", "int64(runtime.NumCPU())": "ncpu", "runtime.NumCPU()": "ncpu", "int64(s.Concurrency)": "conc"})
	emit(root, c, "ServerOptions", "allowPush", "allowPush", "(sNil allow : Bool) : Bool",
		map[string]string{"s != nil": "(!sNil)", "s.AllowPush": "allow"})
	emit(root, c, "ServerOptions", "allowBuiltin", "allowBuiltin", "(sNil disable : Bool) : Bool",
		map[string]string{"s == nil": "sNil", "s.DisableBuiltin": "disable"})
	emit(jhttp, c, "", "parseConstant", "parseConstant", "(s : List UInt8) : Option ConstVal",
		map[string]string{"return true, true": "(some ConstVal.ctrue)", "return false, true": "(some ConstVal.cfalse)",
			"return nil, true": "(some ConstVal.cnull)", "return nil, false": "none"})
	// outbound parameter policy: the statements of Client.marshalParams after json.Marshal, and the
	// same decision inside Server.pushReq
	guard(&fs, []string{"marshalParamsTail"}, func() {
		fd, file := findFunc(root, "Client", "marshalParams")
		if fd == nil {
			fail("function Client.marshalParams not found")
		}
		at := -1
		for i, st := range fd.Body.List {
			if strings.HasPrefix(src(st), "pbits, err := json.Marshal(params)") {
				at = i
			}
		}
		if at < 0 || at+2 > len(fd.Body.List) || !strings.HasPrefix(src(fd.Body.List[at+1]), "if err != nil {\n\treturn nil, err") {
			fail("%s:marshalParams: json.Marshal / error check not found", file)
		}
		tail := fd.Body.List[at+2:]
		fmt.Fprintf(&fs, "/-- %s: `Client.marshalParams` after `json.Marshal` succeeded -/\ndef marshalParamsTail (pbits : List UInt8) (firstByte : List UInt8 → Int) : ParamsDecision :=\n  %s\n\n",
			file, paramsTail(tail, "pbits", c, funcs, file+":marshalParams"))
	})
	guard(&fs, []string{"pushParamsTail"}, func() {
		fd, file := findFunc(root, "Server", "pushReq")
		if fd == nil {
			fail("function Server.pushReq not found")
		}
		var blk []ast.Stmt
		for _, st := range fd.Body.List {
			if is, ok := st.(*ast.IfStmt); ok && src(is.Cond) == "params != nil" {
				blk = is.Body.List
			}
		}
		if len(blk) < 4 || !strings.HasPrefix(src(blk[0]), "v, err := json.Marshal(params)") || !strings.HasPrefix(src(blk[1]), "if err != nil {\n\treturn nil, err") ||
			src(blk[len(blk)-1]) != "bits = v" {
			fail("%s:pushReq: params block has an unexpected shape", file)
		}
		// `v = nil` means omit; reaching `bits = v` with v untouched means keep
		tail := rewriteAssignNil(blk[2:len(blk)-1], "v")
		tail = append(tail, &ast.ReturnStmt{Results: []ast.Expr{ast.NewIdent("v"), ast.NewIdent("nil")}})
		fmt.Fprintf(&fs, "/-- %s: `Server.pushReq`, the parameter block after `json.Marshal` succeeded -/\ndef pushParamsTail (v : List UInt8) (firstByte : List UInt8 → Int) : ParamsDecision :=\n  %s\n\n",
			file, paramsTail(tail, "v", c, funcs, file+":pushReq"))
	})
	// conditions inside larger functions
	emitCond := func(p *pkg, cst *consts, recv, name, lean, sig string, pick func(*ast.FuncDecl) ast.Expr, atoms map[string]string) {
		guard(&fs, []string{lean}, func() { emitCond0(&fs, funcs, p, cst, recv, name, lean, sig, pick, atoms) })
	}
	_ = func(p *pkg, cst *consts, recv, name, lean, sig string, pick func(*ast.FuncDecl) ast.Expr, atoms map[string]string) {
		fd, file := findFunc(p, recv, name)
		if fd == nil {
			fail("function %s.%s not found", recv, name)
		}
		e := pick(fd)
		if e == nil {
			fail("%s:%s: expected condition not found", file, name)
		}
		t := &tr{atoms: atoms, c: cst, funcs: funcs, who: file + ":" + name}
		fmt.Fprintf(&fs, "/-- %s: condition in `%s`: `%s` -/\ndef %s %s :=\n  %s\n\n", file, strings.TrimSpace(recv+" "+name), src(e), lean, sig, t.expr(e))
	}
	// tasks.responses: id-less members are skipped unless ...
	emitCond(root, c, "tasks", "responses", "responsesSkip", "(c : Int) : Bool", func(fd *ast.FuncDecl) ast.Expr {
		var found ast.Expr
		ast.Inspect(fd.Body, func(n ast.Node) bool {
			if is, ok := n.(*ast.IfStmt); ok && found == nil && is.Init != nil && regexp.MustCompile(`^c := ErrorCode\(\w+\.err\)`).MatchString(src(is.Init)) {
				if len(is.Body.List) == 1 && src(is.Body.List[0]) == "continue" {
					found = is.Cond
				}
			}
			return true
		})
		return found
	}, nil)
	// tasks.responses / ClientOptions.handleCallback: an *Error whose data cannot be encoded is
	// reported without it (the test may sit in an unexported helper, and the variable may have any name)
	for _, it := range [][3]string{{"tasks", "responses", "dropErrorData"}, {"ClientOptions", "handleCallback", "dropCallbackErrorData"}} {
		atoms := map[string]string{}
		stripped := regexp.MustCompile(`^(\w+ = |return )&Error\{Code: \w+\.Code, Message: \w+\.Message\}$`)
		emitCond(root, c, it[0], it[1], it[2], "(n : Int) (dataValid : Bool) : Bool", func(fd *ast.FuncDecl) ast.Expr {
			var found ast.Expr
			inspectAll(withHelpers(root, fd), func(n ast.Node) bool {
				if is, ok := n.(*ast.IfStmt); ok && found == nil && len(is.Body.List) >= 1 && stripped.MatchString(src(is.Body.List[len(is.Body.List)-1])) {
					found = is.Cond
				}
				return true
			})
			if found != nil {
				ast.Inspect(found, func(n ast.Node) bool {
					if call, ok := n.(*ast.CallExpr); ok && len(call.Args) == 1 && strings.HasSuffix(src(call.Args[0]), ".Data") {
						switch src(call.Fun) {
						case "len":
							atoms[src(call)] = "n"
						case "json.Valid":
							atoms[src(call)] = "dataValid"
						}
					}
					return true
				})
			}
			return found
		}, atoms)
	}
	// jmessages.toJSON: a single non-batch message is sent bare
	emitCond(root, c, "jmessages", "toJSON", "toJSONSingle", "(n : Int) (b0 : Bool) : Bool", func(fd *ast.FuncDecl) ast.Expr {
		if is, ok := fd.Body.List[0].(*ast.IfStmt); ok && len(is.Body.List) == 1 && src(is.Body.List[0]) == "return j[0].toJSON()" {
			return is.Cond
		}
		// the inverted form: `if <not single> { ...array...; return } ; return j[0].toJSON()`
		if n := len(fd.Body.List); n >= 2 && src(fd.Body.List[n-1]) == "return j[0].toJSON()" {
			if is, ok := fd.Body.List[0].(*ast.IfStmt); ok && is.Else == nil && is.Init == nil && endsInReturn(is.Body.List) {
				return &ast.UnaryExpr{Op: token.NOT, X: &ast.ParenExpr{X: is.Cond}}
			}
		}
		return nil
	}, map[string]string{"len(j)": "n", "j[0].batch": "b0"})
	// hdr.Recv: receive-buffer reuse policy and the preallocation bound
	emitCond(chanp, cc, "hdr", "Recv", "hdrRealloc", "(dl size : Int) : Bool", func(fd *ast.FuncDecl) ast.Expr {
		var found ast.Expr
		ast.Inspect(fd.Body, func(n ast.Node) bool {
			if is, ok := n.(*ast.IfStmt); ok && found == nil && len(is.Body.List) > 0 && strings.HasPrefix(src(is.Body.List[0]), "data = make(") {
				found = is.Cond
			}
			return true
		})
		return found
	}, map[string]string{"len(data)": "dl"})
	emitCond(chanp, cc, "hdr", "Recv", "hdrIncremental", "(size : Int) : Bool", func(fd *ast.FuncDecl) ast.Expr {
		var found ast.Expr
		ast.Inspect(fd.Body, func(n ast.Node) bool {
			if is, ok := n.(*ast.IfStmt); ok && found == nil && strings.Contains(src(is.Cond), "maxPrealloc") {
				found = is.Cond
			}
			return true
		})
		return found
	}, nil)
	emitCond(chanp, cc, "hdr", "Recv", "hdrBadLength", "(errNonNil : Bool) (size : Int) : Bool", func(fd *ast.FuncDecl) ast.Expr {
		var found ast.Expr
		ast.Inspect(fd.Body, func(n ast.Node) bool {
			if is, ok := n.(*ast.IfStmt); ok && found == nil && len(is.Body.List) == 1 && strings.Contains(src(is.Body.List[0]), "invalid content-length") {
				found = is.Cond
			}
			return true
		})
		return found
	}, map[string]string{"err != nil": "errNonNil"})
	// server.read: which Recv results are processed as a record
	emitCond(root, c, "Server", "read", "readAccepts", "(errNil errEOF : Bool) (n : Int) : Bool", func(fd *ast.FuncDecl) ast.Expr {
		var found ast.Expr
		ast.Inspect(fd.Body, func(n ast.Node) bool {
			if is, ok := n.(*ast.IfStmt); ok && found == nil && len(is.Body.List) > 0 && src(is.Body.List[0]) == "err = nil" {
				found = is.Cond
			}
			return true
		})
		return found
	}, map[string]string{"err == nil": "errNil", "err == io.EOF": "errEOF", "len(bits)": "n"})
	// filterBatchLocked: which unmatched members are dropped on a push-enabled server
	dropAtoms := map[string]string{"s.allowP": "allowP", `""`: "([] : List UInt8)"}
	emitCond(root, c, "Server", "filterBatchLocked", "dropsUnmatchedReply", "(allowP : Bool) (m : List UInt8) (e : Option Unit) (r : List UInt8) : Bool", func(fd *ast.FuncDecl) ast.Expr {
		mvar, _ := loopOver(fd, "server.go:filterBatchLocked") // the loop variable, whatever it is called
		dropAtoms[mvar+".M"], dropAtoms[mvar+".E"], dropAtoms[mvar+".R"] = "m", "e", "r"
		var found ast.Expr
		ast.Inspect(fd.Body, func(n ast.Node) bool {
			if is, ok := n.(*ast.IfStmt); ok && found == nil && strings.Contains(src(is.Cond), "s.allowP") {
				found = is.Cond
			}
			if cc, ok := n.(*ast.CaseClause); ok && found == nil && len(cc.List) == 1 && strings.Contains(src(cc.List[0]), "s.allowP") {
				found = cc.List[0]
			}
			return true
		})
		return found
	}, dropAtoms)
	// whole-function translations of the member parser and the hand-written encoder (imp.go)
	guard(&fs, []string{"ParseSt", "psFail", "parseField", "parsePost", "parseJSONResets"}, func() { emitParseJSON(&fs, root, c, funcs) })
	guard(&fs, []string{"toJSON"}, func() { emitToJSON(&fs, root, c, funcs) })
	// jhttp/getter.go: the value typing of ParseQuery (getter.go in this directory)
	guard(&fs, []string{"isDecimalStep", "isDecimal"}, func() { emitByteLoop(&fs, jhttp, c, funcs, "isDecimal", "isDecimal") })
	guard(&fs, []string{"parseNumber"}, func() { emitParseNumber(&fs, jhttp, c, funcs) })
	guard(&fs, []string{"jsonStringQuoted", "jsonStringHalf"}, func() { emitQuoteConds(&fs, jhttp, c, funcs, "parseJSONString", "jsonString") })
	guard(&fs, []string{"quoted64Quoted", "quoted64Half"}, func() { emitQuoteConds(&fs, jhttp, c, funcs, "parseQuoted64", "quoted64") })
	guard(&fs, []string{"queryCascade"}, func() { emitQueryCascade(&fs, jhttp) })
	// decision procedures translated as a whole (decide.go)
	guard(&fs, []string{"deliverAct"}, func() { emitDeliver(&fs, root, c, funcs) })
	guard(&fs, []string{"responseFor"}, func() { emitResponses(&fs, root, c, funcs) })
	guard(&fs, []string{"filterAct"}, func() { emitFilter(&fs, root, c, funcs) })
	fs.WriteString("end Jrpc.Gen.Funcs\n")
	write(*out, "Funcs.lean", fs.String())

	// ---- Facts.lean
	var ft strings.Builder
	ft.WriteString("import Jrpc.GoPrelude\n/-! GENERATED by tools/go2lean from the current /repo sources. Do not edit. -/\nnamespace Jrpc.Gen.Facts\n\n")
	ft.WriteString("/-- one syntactic site: file, enclosing function, what, and whether the owner's mutex is held there -/\nstructure Site where\n  file : String\n  fn : String\n  field : String\n  what : String\n  locked : Bool\n  deriving DecidableEq, Repr\n\n")
	var chanSites, writers, gos, sems []site
	chanRecv := map[string]bool{"ch": true, "s.ch": true, "c.ch": true}
	fields := map[string]bool{"s.used": true, "s.call": true, "s.callID": true, "s.inq": true, "s.nbar": true, "s.ch": true, "s.err": true, "s.work": true,
		"c.pending": true, "c.nextID": true, "c.ch": true, "c.err": true}
	// Functions that run with the mutex held: the *Locked naming convention, plus (to a fixpoint)
	// unexported helpers all of whose call sites are in held contexts (e.g. setContext).
	heldFns := map[string]bool{}
	for pass := 0; pass < 4; pass++ {
		calls := map[string][]bool{}
		for _, fn := range []string{"server.go", "client.go", "json.go"} {
			for _, d := range root.files[fn].Decls {
				fd, ok := d.(*ast.FuncDecl)
				if !ok || fd.Body == nil {
					continue
				}
				w := &lockWalk{file: fn, fn: fd.Name.Name, mutex: map[string]bool{"s.mu": true, "c.mu": true}}
				w.visit = func(n ast.Node, held bool, fnm string) {
					if call, ok := n.(*ast.CallExpr); ok {
						if sel, ok := call.Fun.(*ast.SelectorExpr); ok && (src(sel.X) == "s" || src(sel.X) == "c") {
							calls[sel.Sel.Name] = append(calls[sel.Sel.Name], held)
						}
					}
				}
				w.block(fd.Body.List, strings.HasSuffix(fd.Name.Name, "Locked") || heldFns[fd.Name.Name])
			}
		}
		for name, hs := range calls {
			all := len(hs) > 0
			for _, h := range hs {
				all = all && h
			}
			if all && !ast.IsExported(name) {
				heldFns[name] = true
			}
		}
	}
	for _, fn := range []string{"server.go", "client.go", "json.go"} {
		f := root.files[fn]
		if f == nil {
			fail("%s not found", fn)
		}
		for _, d := range f.Decls {
			fd, ok := d.(*ast.FuncDecl)
			if !ok || fd.Body == nil {
				continue
			}
			name := fd.Name.Name
			w := &lockWalk{file: fn, fn: name, mutex: map[string]bool{"s.mu": true, "c.mu": true}}
			w.visit = func(n ast.Node, held bool, fnm string) {
				switch v := n.(type) {
				case *ast.GoStmt:
					callee := src(v.Call.Fun)
					if _, ok := v.Call.Fun.(*ast.FuncLit); ok {
						callee = "func"
					}
					gos = append(gos, site{fn, fnm, callee, held})
				case *ast.CallExpr:
					if sel, ok := v.Fun.(*ast.SelectorExpr); ok {
						x := src(sel.X)
						switch {
						case chanRecv[x] && (sel.Sel.Name == "Send" || sel.Sel.Name == "Recv" || sel.Sel.Name == "Close"):
							chanSites = append(chanSites, site{fn, fnm, sel.Sel.Name, held})
						case x == "s.sem":
							sems = append(sems, site{fn, fnm, sel.Sel.Name, held})
						case fields[x]:
							switch sel.Sel.Name {
							case "Add", "Pop", "Clear", "Done", "Wait":
								writers = append(writers, site{fn, fnm, x + "." + sel.Sel.Name, held})
							}
						}
					} else if id, ok := v.Fun.(*ast.Ident); ok {
						switch id.Name {
						case "encode":
							chanSites = append(chanSites, site{fn, fnm, "Send(via encode)", held})
						case "delete":
							if len(v.Args) == 2 && fields[src(v.Args[0])] {
								writers = append(writers, site{fn, fnm, src(v.Args[0]) + ".delete", held})
							}
						case "clear": // clear(m) removes every entry: the same kind of write as delete(m, k)
							if len(v.Args) == 1 && fields[src(v.Args[0])] {
								writers = append(writers, site{fn, fnm, src(v.Args[0]) + ".delete", held})
							}
						case "close":
							if len(v.Args) == 1 && fields[src(v.Args[0])] {
								writers = append(writers, site{fn, fnm, src(v.Args[0]) + ".close", held})
							}
						}
					}
				case *ast.AssignStmt:
					for _, l := range v.Lhs {
						x := src(l)
						if ie, ok := l.(*ast.IndexExpr); ok {
							x = src(ie.X)
						}
						if fields[x] {
							writers = append(writers, site{fn, fnm, x + ".assign", held})
						}
					}
				case *ast.IncDecStmt:
					if fields[src(v.X)] {
						writers = append(writers, site{fn, fnm, src(v.X) + ".assign", held})
					}
				case *ast.UnaryExpr:
					if v.Op == token.ARROW && fields[src(v.X)] {
						writers = append(writers, site{fn, fnm, src(v.X) + ".recv", held})
					}
				}
			}
			start := strings.HasSuffix(name, "Locked") || heldFns[name]
			w.block(fd.Body.List, start)
		}
	}
	// the body of encode must contain exactly one Send on its channel parameter and no lock operation
	if fd, _ := findFunc(root, "", "encode"); fd == nil {
		fail("encode not found")
	} else {
		n := 0
		ast.Inspect(fd.Body, func(x ast.Node) bool {
			if call, ok := x.(*ast.CallExpr); ok {
				if sel, ok := call.Fun.(*ast.SelectorExpr); ok && src(sel.X) == "ch" && sel.Sel.Name == "Send" {
					n++
				}
			}
			return true
		})
		// the walker also recorded the inner site under fn "encode"; drop it (callers carry the lock state)
		var keep []site
		for _, s := range chanSites {
			if s.fn != "encode" {
				keep = append(keep, s)
			}
		}
		chanSites = keep
		fmt.Fprintf(&ft, "def encodeSendCount : Nat := %d\n\n", n)
	}
	emitSites := func(name, doc string, ss []site) {
		// sorted by (file, function, what): the inventories do not depend on where in its file a
		// function stands, nor on the order of independent statements inside it
		ss = append([]site(nil), ss...)
		sort.SliceStable(ss, func(i, j int) bool {
			a, b := ss[i], ss[j]
			if a.file != b.file {
				return a.file > b.file // server.go before client.go, as before
			}
			if a.fn != b.fn {
				return a.fn < b.fn
			}
			return a.what < b.what
		})
		fmt.Fprintf(&ft, "/-- %s -/\ndef %s : List Site := [\n", doc, name)
		for i, s := range ss {
			comma := ","
			if i == len(ss)-1 {
				comma = ""
			}
			field, what := "", s.what
			if i := strings.LastIndex(s.what, "."); i > 0 && name == "writers" {
				field, what = s.what[:i], s.what[i+1:]
			}
			fmt.Fprintf(&ft, "  ⟨%s, %s, %s, %s, %v⟩%s\n", leanStr(s.file), leanStr(s.fn), leanStr(field), leanStr(what), s.locked, comma)
		}
		ft.WriteString("]\n\n")
	}
	emitSites("chanSites", "every Send / Recv / Close on a channel value in server.go, client.go, json.go", chanSites)
	emitSites("writers", "every write to a mutex-guarded field (and every operation on the barrier / work signal / queue)", writers)
	emitSites("goStmts", "every go statement", gos)
	emitSites("semSites", "every use of the handler semaphore", sems)
	// position facts in invoke: Acquire precedes the handler call; Release is deferred
	if fd, _ := findFunc(root, "Server", "invoke"); fd == nil {
		fail("Server.invoke not found")
	} else {
		acq, rel, call := -1, -1, -1
		relDeferred := false
		// a statement that calls a small unexported method counts as containing that method's body
		// (one level), so that `s.acquire(ctx)` wrapping `s.sem.Acquire(ctx, 1)` is still the acquire
		expand := func(txt string) string {
			out := txt
			for _, m := range regexp.MustCompile(`\bs\.(\w+)\(`).FindAllStringSubmatch(txt, -1) {
				if cd, _ := findFunc(root, "Server", m[1]); cd != nil && cd.Body != nil && len(cd.Body.List) <= 4 && !ast.IsExported(m[1]) {
					out += " /* " + m[1] + ": */ " + src(cd.Body)
				}
			}
			return out
		}
		for i, s := range fd.Body.List {
			txt := expand(src(s))
			if strings.Contains(txt, "s.sem.Acquire(") && acq < 0 {
				acq = i
			}
			if strings.Contains(txt, "s.sem.Release(") && rel < 0 {
				rel = i
				_, relDeferred = s.(*ast.DeferStmt)
			}
			if strings.Contains(txt, "h(ctx, req)") && call < 0 {
				call = i
			}
		}
		fmt.Fprintf(&ft, "/-- statement indices in `invoke`: acquire, release (deferred?), handler call -/\ndef invokeOrder : Int × Int × Bool × Int := (%d, %d, %v, %d)\n\n", acq, rel, relDeferred, call)
	}
	// stopLocked: idempotence guard, one Close, channel cleared afterwards (Close once per Start / NewClient)
	{
		var rows []string
		for _, fn := range []string{"server.go", "client.go"} {
			for _, d := range root.files[fn].Decls {
				fd, ok := d.(*ast.FuncDecl)
				if !ok || fd.Name.Name != "stopLocked" || fd.Body == nil || len(fd.Body.List) == 0 {
					continue
				}
				guard := false
				if is, ok := fd.Body.List[0].(*ast.IfStmt); ok && strings.HasSuffix(src(is.Cond), ".ch == nil") && endsInReturn(is.Body.List) {
					guard = true
				}
				closeIdx, clearIdx, closes := -1, -1, 0
				for i, st := range fd.Body.List {
					txt := src(st)
					if strings.HasSuffix(txt, ".ch.Close()") {
						closes++
						if closeIdx < 0 {
							closeIdx = i
						}
					}
					if strings.HasSuffix(txt, ".ch = nil") {
						clearIdx = i
					}
				}
				rows = append(rows, fmt.Sprintf("(%s, %v, %d, %v)", leanStr(fn), guard, closes, closeIdx >= 0 && clearIdx > closeIdx))
			}
		}
		fmt.Fprintf(&ft, "/-- per stopLocked: starts with `if x.ch == nil { return }`; number of top-level `x.ch.Close()` statements; `x.ch = nil` follows the Close -/\ndef stopGuards : List (String × Bool × Nat × Bool) := [%s]\n\n", strings.Join(rows, ", "))
	}
	// who parses inbound bytes: every caller of the shared envelope parser jmessages.parseJSON
	{
		var callers []string
		for _, fn := range sortedFiles(root) {
			for _, d := range root.files[fn].Decls {
				fd, ok := d.(*ast.FuncDecl)
				if !ok || fd.Body == nil {
					continue
				}
				ast.Inspect(fd.Body, func(n ast.Node) bool {
					if call, ok := n.(*ast.CallExpr); ok {
						if sel, ok := call.Fun.(*ast.SelectorExpr); ok && sel.Sel.Name == "parseJSON" {
							if _, isIdent := sel.X.(*ast.Ident); isIdent && src(sel.X) != "req" {
								callers = append(callers, leanStr(fn+":"+fd.Name.Name))
							}
						}
					}
					return true
				})
			}
		}
		fmt.Fprintf(&ft, "/-- functions that decode an inbound record with the shared envelope parser `jmessages.parseJSON` -/\ndef envelopeParserCallers : List String := [%s]\n\n", strings.Join(callers, ", "))
	}
	// server/loop.go: the per-connection goroutine's call sequence and the wait-group placement
	{
		srvp := loadPkg(*repo, "server")
		fd, _ := findFunc(srvp, "", "Loop")
		if fd == nil {
			fail("server.Loop not found")
		}
		var calls []string
		addBeforeGo, waitBeforeReturn := false, true
		nReturns := 0
		// (1) wg.Add(1) precedes the go statement in its block; (2) every return of Loop itself (not
		// of a nested function literal) is directly preceded by wg.Wait() in its block
		var walkBlocks func(n ast.Node)
		walkBlocks = func(n ast.Node) {
			ast.Inspect(n, func(x ast.Node) bool {
				if _, isLit := x.(*ast.FuncLit); isLit {
					return false
				}
				var list []ast.Stmt
				switch b := x.(type) {
				case *ast.BlockStmt:
					list = b.List
				case *ast.CaseClause:
					list = b.Body
				default:
					return true
				}
				addIdx := -1
				for i, st := range list {
					txt := src(st)
					if txt == "wg.Add(1)" {
						addIdx = i
					}
					if _, isGo := st.(*ast.GoStmt); isGo && addIdx >= 0 && i > addIdx {
						addBeforeGo = true
					}
					if _, isRet := st.(*ast.ReturnStmt); isRet {
						nReturns++
						if i == 0 || src(list[i-1]) != "wg.Wait()" {
							waitBeforeReturn = false
						}
					}
				}
				return true
			})
		}
		walkBlocks(fd.Body)
		if nReturns == 0 {
			waitBeforeReturn = false
		}
		// the calls made for one connection, by callee name, in source order; a call to a function of
		// this package is followed into that function (one level), so that an extracted helper does
		// not hide them
		names := map[string]bool{"newService": true, "Assigner": true, "Close": true, "Start": true, "Stop": true, "WaitStatus": true, "Finish": true}
		var collect func(n ast.Node, depth int)
		collect = func(n ast.Node, depth int) {
			ast.Inspect(n, func(x ast.Node) bool {
				call, ok := x.(*ast.CallExpr)
				if !ok {
					return true
				}
				callee := ""
				switch f := call.Fun.(type) {
				case *ast.Ident:
					callee = f.Name
				case *ast.SelectorExpr:
					callee = f.Sel.Name
				}
				if id, isIdent := call.Fun.(*ast.Ident); isIdent && depth == 0 {
					if hd, _ := findFunc(srvp, "", id.Name); hd != nil && hd.Body != nil && id.Name != "Loop" {
						// arguments first (Go evaluates them before the call), then the helper's body
						for _, a := range call.Args {
							collect(a, depth)
						}
						collect(hd.Body, depth+1)
						return false
					}
				}
				if names[callee] && callee != "Close" || (callee == "Close" && strings.HasSuffix(src(call.Fun), "ch.Close")) {
					if sel, isSel := call.Fun.(*ast.SelectorExpr); !isSel || src(sel.X) != "wg" {
						// inner calls first: jrpc2.NewServer(...).Start(ch) lists Start once
						calls = append(calls, leanStr(callee))
					}
				}
				return true
			})
		}
		collect(fd.Body, 0)
		fmt.Fprintf(&ft, "/-- calls of the per-connection goroutine of `server.Loop`, in source order -/\ndef loopCalls : List String := [%s]\n", strings.Join(calls, ", "))
		fmt.Fprintf(&ft, "/-- `wg.Add(1)` precedes the `go` statement; `wg.Wait()` precedes Loop's return -/\ndef loopWg : Bool × Bool := (%v, %v)\n\n", addBeforeGo, waitBeforeReturn)
	}
	// channel.IsErrClosing: which sentinel errors count as "the connection / listener was closed"
	guard(&ft, []string{"isErrClosingSentinels"}, func() {
		fd, _ := findFunc(chanp, "", "IsErrClosing")
		if fd == nil {
			fail("channel.IsErrClosing not found")
		}
		var sent []string
		ast.Inspect(fd.Body, func(n ast.Node) bool {
			if call, ok := n.(*ast.CallExpr); ok && (src(call.Fun) == "errors.Is" || src(call.Fun) == "errors.As") && len(call.Args) == 2 {
				sent = append(sent, leanStr(src(call.Args[1]))) // recognised through wrapping
			}
			if be, ok := n.(*ast.BinaryExpr); ok && (be.Op == token.EQL || be.Op == token.NEQ) && src(be.X) == "err" && src(be.Y) != "nil" {
				sent = append(sent, leanStr("=="+src(be.Y))) // recognised only when returned bare
			}
			return true
		})
		sort.Strings(sent)
		fmt.Fprintf(&ft, "/-- the sentinel errors `channel.IsErrClosing` recognises (via errors.Is / ==), sorted -/\ndef isErrClosingSentinels : List String := [%s]\n\n", strings.Join(sent, ", "))
	})
	// every goroutine that announces its end with `defer X.Done()`: is X.Add(..) called before the go
	// statement, in the same statement list (so that X.Wait() cannot return before it is counted)?
	guard(&ft, []string{"goRegistration"}, func() {
		var rows []string
		for _, fn := range []string{"server.go", "client.go"} {
			f := root.files[fn]
			if f == nil {
				continue
			}
			for _, d := range f.Decls {
				fd, ok := d.(*ast.FuncDecl)
				if !ok || fd.Body == nil {
					continue
				}
				ast.Inspect(fd.Body, func(x ast.Node) bool {
					var list []ast.Stmt
					switch b := x.(type) {
					case *ast.BlockStmt:
						list = b.List
					case *ast.CaseClause:
						list = b.Body
					default:
						return true
					}
					for i, st := range list {
						gs, ok := st.(*ast.GoStmt)
						if !ok {
							continue
						}
						lit, ok := gs.Call.Fun.(*ast.FuncLit)
						if !ok {
							continue
						}
						for _, bs := range lit.Body.List {
							ds, ok := bs.(*ast.DeferStmt)
							if !ok || !strings.HasSuffix(src(ds.Call.Fun), ".Done") {
								continue
							}
							wg := strings.TrimSuffix(src(ds.Call.Fun), ".Done")
							before := false
							for j := 0; j < i; j++ {
								if strings.HasPrefix(src(list[j]), wg+".Add(") {
									before = true
								}
							}
							rows = append(rows, fmt.Sprintf("(%s, %s, %s, %v)", leanStr(fn), leanStr(fd.Name.Name), leanStr(wg), before))
						}
					}
					return true
				})
			}
		}
		sort.Strings(rows)
		fmt.Fprintf(&ft, "/-- every goroutine that ends with `defer X.Done()`: file, function, X, and whether `X.Add(..)` precedes the go statement in the same statement list -/\ndef goRegistration : List (String × String × String × Bool) := [\n  %s\n]\n\n", strings.Join(rows, ",\n  "))
	})
	ft.WriteString("end Jrpc.Gen.Facts\n")
	write(*out, "Facts.lean", ft.String())
	write(*out, "FAILURES.txt", strings.Join(failures, "\n"))
}

func write(dir, name, content string) {
	if err := os.WriteFile(filepath.Join(dir, name), []byte(content), 0o644); err != nil {
		fail("write %s: %v", name, err)
	}
}

func findVarLit(p *pkg, name string) *ast.CompositeLit {
	for _, fn := range sortedFiles(p) {
		for _, d := range p.files[fn].Decls {
			gd, ok := d.(*ast.GenDecl)
			if !ok || gd.Tok != token.VAR {
				continue
			}
			for _, s := range gd.Specs {
				vs := s.(*ast.ValueSpec)
				for i, n := range vs.Names {
					if n.Name != name || i >= len(vs.Values) {
						continue
					}
					e := vs.Values[i]
					if u, ok := e.(*ast.UnaryExpr); ok && u.Op == token.AND {
						e = u.X
					}
					if cl, ok := e.(*ast.CompositeLit); ok {
						return cl
					}
				}
			}
		}
	}
	return nil
}

func findStruct(p *pkg, name string) *ast.StructType {
	for _, fn := range sortedFiles(p) {
		for _, d := range p.files[fn].Decls {
			gd, ok := d.(*ast.GenDecl)
			if !ok || gd.Tok != token.TYPE {
				continue
			}
			for _, s := range gd.Specs {
				ts := s.(*ast.TypeSpec)
				if ts.Name.Name == name {
					if st, ok := ts.Type.(*ast.StructType); ok {
						return st
					}
				}
			}
		}
	}
	return nil
}

func structTag(tag, key string) string {
	for tag != "" {
		i := strings.Index(tag, ":\"")
		if i < 0 {
			return ""
		}
		k := strings.TrimSpace(tag[:i])
		rest := tag[i+2:]
		j := strings.Index(rest, "\"")
		if j < 0 {
			return ""
		}
		if k == key {
			return rest[:j]
		}
		tag = strings.TrimSpace(rest[j+1:])
	}
	return ""
}
