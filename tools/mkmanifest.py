#!/usr/bin/env python3
"""Regenerate MANIFEST.json from lib/props.py (registered checks) and properties.jsonl."""
import json, os, sys
ROOT = os.path.dirname(os.path.dirname(os.path.abspath(__file__)))
sys.path.insert(0, os.path.join(ROOT, "lib"))
from props import PROPS
props = [json.loads(l)["id"] for l in open(os.path.join(ROOT, "properties.jsonl"))]
hook_commits = ["25c01d2", "f87a3ec"]
m = {
    "version": 1,
    "setup_cmd": "./check setup",
    "hooks": {
        "guard": "verif",
        "enable": "go1.26.8 test -c -tags verif ./harness (GOFLAGS=-mod=mod GOPROXY=off GOSUMDB=off GOTOOLCHAIN=local; harness go.mod replaces jrpc2 => /repo)",
        "baseline_off_cmd": "cd /repo && GOFLAGS=-mod=mod go test -json -vet=off -count=1 -timeout 25m ./...",
        "source_commits": hook_commits,
        "add_only": True,
    },
    "engines": [
        {"name": "lean-model", "path": "lean/", "serves_properties": sorted(PROPS), "kind_free_text": "Lean 4 executable models (Jrpc/Model), property theorems (Jrpc/Props), tie obligations over regenerated source facts (Jrpc/Tie over Jrpc/Gen), compiled oracle (Main.lean)"},
        {"name": "go2lean", "path": "tools/go2lean/", "serves_properties": sorted(PROPS), "kind_free_text": "Go->Lean translator / fact extractor: regenerates Jrpc/Gen from /repo on every run (constants, small functions, picked conditions, structural facts; and whole functions in continuation style: jmessage.parseJSON / toJSON, the ParseQuery typing, Client.deliverLocked, the loop bodies of tasks.responses and Server.filterBatchLocked)"},
        {"name": "harness", "path": "harness/", "serves_properties": sorted(PROPS), "kind_free_text": "Go correspondence harness (built from /repo with -tags verif): runs model oracle and implementation on the same inputs/schedules, evaluates the spec on implementation observations, searches for replays"},
    ],
    "checks": [],
    "notes": "See DESIGN.md. Every check = (1) regenerate Gen from /repo, (2) lake build of the property's theorems and tie obligations + axiom audit, (3) correspondence model-vs-implementation, (4) spec evaluated on implementation observations (search for a replay).",
    "not_applicable": [],
}
for pid in props:
    if pid in PROPS:
        s = PROPS[pid]
        m["checks"].append({
            "property_id": pid,
            "quick_cmd": "./check %s quick" % pid,
            "thorough_cmd": "./check %s thorough" % pid,
            "evidence_file": "evidence/%s.json" % pid,
            "replay_cmd_template": "./check replay {path}",
            "engine": "lean-model",
            "level_claimed": {"category": "proof", "text": s["level_text"], "design_ref": s.get("design_ref", "DESIGN.md §4 " + pid)},
            "level_note": s["level_note"],
            "technique": s.get("technique", "Lean 4 theorems over an executable model; model tied to /repo by regenerated Gen facts (Tie theorems) and by differential correspondence with the real code"),
        })
    else:
        m["not_applicable"].append({"property_id": pid, "reason": "check not built yet (work in progress); no claim is made for this property"})
json.dump(m, open(os.path.join(ROOT, "MANIFEST.json"), "w"), indent=1)
print("checks:", len(m["checks"]), "not_applicable:", len(m["not_applicable"]))
