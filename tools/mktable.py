#!/usr/bin/env python3
"""Regenerate the table of seeded changes in DESIGN.md (section 0.6) from seeded/*/meta.json and
seeded/RESULTS-quick.json (the output of `tools/seedtest.py matrix quick`)."""
import json, os, re, sys
V = os.path.dirname(os.path.dirname(os.path.abspath(__file__)))
res = json.load(open(os.path.join(V, "seeded", "RESULTS-quick.json")))
rows = []
for name in sorted(os.listdir(os.path.join(V, "seeded"))):
    d = os.path.join(V, "seeded", name)
    if not os.path.isfile(os.path.join(d, "meta.json")):
        continue
    m = json.load(open(os.path.join(d, "meta.json")))
    s = " ".join(m.get("summary", "").split())
    cut = s[:260]
    if len(s) > 260:
        k = cut.rfind(". ")
        cut = cut[:k + 1] if k > 120 else cut.rsplit(" ", 1)[0] + " …"
    cut = cut.replace("|", "\\|")
    r = res.get(name) or {}
    cell = "not run"
    if "error" in r:
        cell = "patch does not apply"
    else:
        parts = []
        for p, x in r.items():
            nv = sum(1 for l in x["lines"] if l.startswith("VIOLATION"))
            nf = any("no-failing-input-found" in l for l in x["lines"])
            how = "no-failing-input-found" if nf and nv == sum(1 for l in x["lines"] if "no-failing-input-found" in l) else "replayable input/schedule"
            tag = "" if p == m["property"] else " (by %s)" % p
            parts.append("%d VIOLATION%s, %s, %.1f s" % (nv, tag, how, x["wall"]) if x["rc"] == 1 else "MISSED%s" % tag)
        cell = "; ".join(parts) or "not run"
    rows.append("| %s | %s | %s |" % (name, cut, cell))
    m["detection"] = {"ran": "tools/seedtest.py matrix quick (git -C /repo apply seeded/%s/patch.diff && ./check %s quick ; git -C /repo checkout -- .)" % (name, " ".join(r.keys()) if "error" not in r else m["property"]),
                      "result": cell}
    json.dump(m, open(os.path.join(d, "meta.json"), "w"), indent=1)
p = os.path.join(V, "DESIGN.md")
s = open(p).read()
head = "| change | what it does | own check (quick) |\n|---|---|---|\n"
i = s.index(head) + len(head)
j = i
while s[j] == "|":
    j = s.index("\n", j) + 1
s = s[:i] + "\n".join(rows) + "\n" + s[j:]
open(p, "w").write(s)
print(len(rows), "rows;", sum(1 for r in rows if "MISSED" in r or "not run" in r or "does not apply" in r), "not detected")
