#!/usr/bin/env python3
"""Validate seeded changes and run the checks against them.

  seedtest.py validate <dir>...      confirm: patch applies, suite passes with it, demo fails with it and passes without
  seedtest.py detect <dir> [tier]    apply the patch to /repo, run the check(s) of its property, undo
"""
import json, os, shutil, subprocess, sys, time

REPO = os.environ.get("VERIF_REPO", "/repo")
VERIF = os.path.dirname(os.path.dirname(os.path.abspath(__file__)))
ENV = dict(os.environ, GOFLAGS="-mod=mod", GOPROXY="off")


def sh(cmd, cwd=None, timeout=900):
    try:
        p = subprocess.run(cmd, cwd=cwd, shell=True, env=ENV, stdout=subprocess.PIPE, stderr=subprocess.STDOUT, text=True, timeout=timeout)
        return p.returncode, p.stdout
    except subprocess.TimeoutExpired as e:
        return 124, (e.stdout or b"").decode() if isinstance(e.stdout, bytes) else "timeout"


def validate(d):
    d = os.path.abspath(d)
    meta = json.load(open(os.path.join(d, "meta.json")))
    wt = "/tmp/seedval-%d" % os.getpid()
    sh("git -C %s worktree remove --force %s" % (REPO, wt))
    rc, o = sh("git -C %s worktree add -q --detach %s HEAD" % (REPO, wt))
    res = {"dir": d, "property": meta.get("property")}
    try:
        rc, o = sh("git apply --check %s/patch.diff && git apply %s/patch.diff" % (d, d), cwd=wt)
        res["applies"] = rc == 0
        if rc != 0:
            res["apply_log"] = o[-500:]
            return res
        rc, o = sh("go build ./... && go test -vet=off -count=1 -timeout 5m ./...", cwd=wt)
        res["suite_passes_with_change"] = rc == 0
        if rc != 0:
            res["suite_log"] = o[-1500:]
        pkg = meta.get("pkgdir", ".") or "."
        demo = os.path.join(wt, pkg, "zz_seeded_demo_test.go")
        shutil.copy(os.path.join(d, "demo_test.go"), demo)
        test = meta["test"]
        rc, o = sh("go test -vet=off -count=1 -timeout 90s -run '^%s$' ./%s/" % (test, pkg), cwd=wt, timeout=200)
        res["demo_fails_with_change"] = rc != 0
        res["demo_with_log"] = o[-600:]
        sh("git apply -R %s/patch.diff" % d, cwd=wt)
        rc, o = sh("go test -vet=off -count=1 -timeout 90s -run '^%s$' ./%s/" % (test, pkg), cwd=wt, timeout=200)
        res["demo_passes_without_change"] = rc == 0
        if rc != 0:
            res["demo_without_log"] = o[-600:]
        res["valid"] = bool(res.get("suite_passes_with_change") and res["demo_fails_with_change"] and res["demo_passes_without_change"])
    finally:
        sh("git -C %s worktree remove --force %s" % (REPO, wt))
    return res


def detect(d, tier="quick", props=None):
    d = os.path.abspath(d)
    meta = json.load(open(os.path.join(d, "meta.json")))
    # `checked_by`: the change no longer breaks the property it was written against on the repaired
    # tree, but another one (see meta["reclassified"])
    props = props or meta.get("checked_by") or [meta["property"]]
    rc, o = sh("git -C %s status --porcelain" % REPO)
    if o.strip():
        print("refusing: /repo has uncommitted changes:\n" + o)
        return None
    out = {}
    # the checks rewrite evidence/<id>.json; what they write about a changed tree must not replace
    # the evidence of the unchanged one
    evdir = os.path.join(VERIF, "evidence")
    saved = {f: open(os.path.join(evdir, f)).read() for f in os.listdir(evdir) if f.endswith(".json")}
    try:
        rc, o = sh("git -C %s apply %s/patch.diff" % (REPO, d))
        if rc != 0:
            return {"error": "patch does not apply: " + o[-300:]}
        for p in props:
            t0 = time.time()
            rc, o = sh("cd %s && ./check %s %s" % (VERIF, p, tier), timeout=4000)
            lines = [l for l in o.splitlines() if l.startswith(("VIOLATION", "KNOWN-FINDING", "OK "))]
            out[p] = {"rc": rc, "lines": lines, "wall": round(time.time() - t0, 1)}
    finally:
        sh("git -C %s checkout -- . && git -C %s clean -fdq" % (REPO, REPO))
        for f, txt in saved.items():
            open(os.path.join(evdir, f), "w").write(txt)
    return out


ALL_PROPS = ["C%02d" % i for i in range(1, 21)]


def matrix(tier="quick", every=False):
    """Run, for every seeded change, the check of its own property (`all`: every check, to record
    which other checks see it)."""
    seeded = os.path.join(VERIF, "seeded")
    results = {}
    for name in sorted(os.listdir(seeded)):
        d = os.path.join(seeded, name)
        if not os.path.isfile(os.path.join(d, "patch.diff")):
            continue
        r = detect(d, tier, ALL_PROPS if every else None)
        results[name] = r
        print(name, json.dumps(r), flush=True)
    json.dump(results, open(os.path.join(VERIF, "seeded", "RESULTS-%s%s.json" % (tier, "-all" if every else "")), "w"), indent=1)
    stale = [k for k, v in results.items() if v and "error" in v]
    missed = [k for k, v in results.items() if k not in stale and (not v or not any(x["rc"] == 1 for x in v.values() if isinstance(x, dict)))]
    print("DOES-NOT-APPLY:", stale)
    print("MISSED:", missed)


def benign_matrix(tier="quick"):
    """Run every check against every behaviour-preserving change under benign/: any VIOLATION line is
    an alarm on code where the property holds (a broken tie / correspondence, or a harness mistake)."""
    root = os.path.join(VERIF, "benign")
    results = {}
    for name in sorted(os.listdir(root)):
        d = os.path.join(root, name)
        if not os.path.isfile(os.path.join(d, "patch.diff")):
            continue
        r = detect(d, tier, ALL_PROPS)
        alarms = {p: x["lines"] for p, x in (r or {}).items() if isinstance(x, dict) and x.get("rc") != 0}
        results[name] = {"alarms": alarms, "error": (r or {}).get("error")}
        print(name, json.dumps(results[name]), flush=True)
    json.dump(results, open(os.path.join(root, "RESULTS-%s.json" % tier), "w"), indent=1)


if __name__ == "__main__":
    if sys.argv[1] == "benign":
        benign_matrix(sys.argv[2] if len(sys.argv) > 2 else "quick")
    elif sys.argv[1] == "matrix":
        matrix(sys.argv[2] if len(sys.argv) > 2 else "quick", len(sys.argv) > 3 and sys.argv[3] == "all")
    elif sys.argv[1] == "validate":
        for d in sys.argv[2:]:
            r = validate(d)
            print(json.dumps(r))
            json.dump(r, open(os.path.join(d, "validation.json"), "w"), indent=1)
    elif sys.argv[1] == "detect":
        d = sys.argv[2]
        tier = sys.argv[3] if len(sys.argv) > 3 else "quick"
        props = sys.argv[4:] or None
        print(json.dumps(detect(d, tier, props), indent=1))
